//@ needs specs errors stdspecs lebytes anchor_shim state_core oracle authority transfer_fee
// Handler layer of the swap instructions (Anchor): what is wrapped around the swap loop.
// The loop itself (`swap`) is verified in the crates swap_manager / swap_manager_adaptive; here it is an external stub whose result is an
// uninterpreted function of its inputs (swap_res) plus the facts of swap_post that the handler-level arguments need.
pub mod swap_handlers {
use vstd::prelude::*;
use crate::errors::ErrorCode;
use crate::specs::*;
use crate::anchor_shim::*;
use crate::authority::InterfaceAccount;
use crate::state_core::{Whirlpool, WhirlpoolRewardInfo, NUM_REWARDS};
use crate::oracle::{AdaptiveFeeInfo, AdaptiveFeeConstants, AdaptiveFeeVariables};
use crate::token_v2::*;
use crate::spl_transfer_fee::*;
//@ tags C16 C03
//@ struct manager/swap_manager.rs PostSwapUpdate
//@ assume swap-handler shims: SwapTickSequence is opaque; `swap` is an external stub: its result and its effect on the tick sequence are uninterpreted functions (swap_res, swap_seq) of all its inputs, and its result satisfies the clause "never more than the specified amount on the specified side" of swap_post (proved on the real loop in crates swap_manager / swap_manager_adaptive)
pub struct SwapTickSequence { pub n: usize }
pub uninterp spec fn swap_res(w: Whirlpool, s: SwapTickSequence, amount: u64, limit: u128, is_in: bool, a_to_b: bool, ts: u64, afi: Option<AdaptiveFeeInfo>) -> Result<Box<PostSwapUpdate>>;
pub uninterp spec fn swap_seq(w: Whirlpool, s: SwapTickSequence, amount: u64, limit: u128, is_in: bool, a_to_b: bool, ts: u64, afi: Option<AdaptiveFeeInfo>) -> SwapTickSequence;
//@ fn manager/swap_manager.rs swap -> r stub
    ensures
        r == swap_res(*whirlpool, *old(swap_tick_sequence), amount, sqrt_price_limit, amount_specified_is_input, a_to_b, timestamp, *adaptive_fee_info),
        *final(swap_tick_sequence) == swap_seq(*whirlpool, *old(swap_tick_sequence), amount, sqrt_price_limit, amount_specified_is_input, a_to_b, timestamp, *adaptive_fee_info),
        r matches Ok(u) ==> (if a_to_b == amount_specified_is_input { u.amount_a } else { u.amount_b }) <= amount,
        // reachable-state assumption: the protocol's accumulated share fits u64 (it is bounded by the vault balance)
        r matches Ok(u) ==> fee_fits(*whirlpool, *u, a_to_b),
//@ end

pub open spec fn in_of(u: PostSwapUpdate, a_to_b: bool) -> u64 { if a_to_b { u.amount_a } else { u.amount_b } }
pub open spec fn out_of(u: PostSwapUpdate, a_to_b: bool) -> u64 { if a_to_b { u.amount_b } else { u.amount_a } }
/// everything except the two token amounts is handed on unchanged
pub open spec fn same_state_update(u: PostSwapUpdate, u0: PostSwapUpdate) -> bool {
    u.lp_fee == u0.lp_fee && u.next_liquidity == u0.next_liquidity && u.next_tick_index == u0.next_tick_index && u.next_sqrt_price == u0.next_sqrt_price
    && u.next_fee_growth_global == u0.next_fee_growth_global && u.next_reward_infos == u0.next_reward_infos && u.next_protocol_fee == u0.next_protocol_fee
    && u.next_adaptive_fee_info == u0.next_adaptive_fee_info
}
/// `gross` is an amount to transfer such that, after the mint's fee is withheld, exactly `net` arrives
pub open spec fn grosses_up(m: crate::token_v2::Mint, net: int, gross: int) -> bool { gross - mint_fee(m, gross) == net }

/// C16, swaps with transfer-fee tokens.
/// exact-in: the loop runs on what the vault will actually receive (amount minus the INPUT mint's fee); a complete fill charges `amount`, a partial
///   fill charges the curve input grossed up with the INPUT mint's fee, so the vault receives exactly the curve input; the output side is the curve output.
/// exact-out: the loop is asked for an output that, after the OUTPUT mint's fee, leaves `amount` for the user; the input charged is the curve input
///   grossed up with the INPUT mint's fee.
pub open spec fn swfe_post(w: Whirlpool, mint_a: crate::token_v2::Mint, mint_b: crate::token_v2::Mint, seq0: SwapTickSequence, amount: u64, limit: u128, is_in: bool, a_to_b: bool, ts: u64, afi: Option<AdaptiveFeeInfo>, u: PostSwapUpdate) -> bool {
    let min = if a_to_b { mint_a } else { mint_b };
    let mout = if a_to_b { mint_b } else { mint_a };
    if is_in {
        let ex = (amount as int - mint_fee(min, amount as int)) as u64;
        swap_res(w, seq0, ex, limit, true, a_to_b, ts, afi) matches Ok(u0)
            && same_state_update(u, *u0) && out_of(u, a_to_b) == out_of(*u0, a_to_b)
            && (in_of(*u0, a_to_b) == ex ==> in_of(u, a_to_b) == amount)
            && (in_of(*u0, a_to_b) != ex ==> grosses_up(min, in_of(*u0, a_to_b) as int, in_of(u, a_to_b) as int))
    } else {
        exists|req: u64| grosses_up(mout, amount as int, req as int)
            && (#[trigger] swap_res(w, seq0, req, limit, false, a_to_b, ts, afi) matches Ok(u0)
                && same_state_update(u, *u0) && out_of(u, a_to_b) == out_of(*u0, a_to_b)
                && grosses_up(min, in_of(*u0, a_to_b) as int, in_of(u, a_to_b) as int))
    }
}
//@ fn instructions/v2/swap.rs swap_with_transfer_fee_extension -> r tags=C16,C03
    ensures
        // (C03 as well: for token-extension swaps THIS is the amount the trader is charged resp. receives, which the thresholds and amount bounds of C03 speak about)
        r matches Ok(u) ==> swfe_post(*whirlpool, token_mint_a.data, token_mint_b.data, *old(swap_tick_sequence), amount, sqrt_price_limit, amount_specified_is_input, a_to_b, timestamp, *adaptive_fee_info, *u), //# C16 C03
        // reachable-state assumption handed on from the swap stub
        r matches Ok(u) ==> fee_fits(*whirlpool, *u, a_to_b),
//@ end

// ------------------------------------------------------------------ handlers (Anchor): shims for the account wrappers
//@ tags C03 C17 C06
//@ assume anchor account wrappers are shims: Context (accounts behind &mut), Account<'info, T> (data + key, Deref/DerefMut), Program, Signer, UncheckedAccount, AccountInfo; the #[account(..)] attributes of the #[derive(Accounts)] structs become the generated precondition constraints_<Struct> (K-rules, see the per-struct assumption entries); Clock::get is a stub; the tick-sequence builder and the oracle accessor are stubs whose results are uninterpreted functions of their inputs; token CPIs are stubs that record a fact moved(from, to, amount)
pub struct BumpsShim { pub position: u8, pub position_bundle: u8 }
pub struct Context<'a, 'b, 'c, 'info, T> { pub accounts: &'b mut T, pub remaining_accounts: &'c [AccountInfo<'info>], pub bumps: BumpsShim, pub p: core::marker::PhantomData<&'a ()> }
pub use crate::authority::{AccountInfo, Signer, TokenAccount};
pub use crate::anchor_shim::Account;
pub struct Program<'info, T> { pub k: Pubkey, pub p: core::marker::PhantomData<&'info T> }
pub struct Token {}
pub struct UncheckedAccount<'info> { pub k: &'info Pubkey, pub writable: bool }
impl<'info> crate::anchor_shim::SKey for UncheckedAccount<'info> { open spec fn skey(&self) -> Pubkey { *self.k } }
impl<'info, T> crate::anchor_shim::SKey for Program<'info, T> { open spec fn skey(&self) -> Pubkey { self.k } }
impl<'info> UncheckedAccount<'info> {
    pub fn to_account_info(&self) -> (r: AccountInfo<'info>) ensures *r.key == *self.k, r.is_writable == self.writable { AccountInfo { key: self.k, is_signer: false, is_writable: self.writable } }
}
pub struct ClockData { pub slot: u64, pub epoch_start_timestamp: i64, pub epoch: u64, pub leader_schedule_epoch: u64, pub unix_timestamp: i64 }
pub uninterp spec fn now_unix() -> i64;
pub struct Clock {}
impl Clock {
    #[verifier::external_body]
    pub fn get() -> (r: Result<ClockData>) ensures r matches Ok(c) ==> c.unix_timestamp == now_unix() { unimplemented!() }
}
//@ fn util/shared.rs to_timestamp_u64 -> r tags=C03,C17
    ensures t >= 0 ==> r == Ok::<u64, Error>(t as u64), t < 0 ==> r == err::<u64>(ErrorCode::InvalidTimestampConversion),
//@ rewrite /\|_\| ErrorCode/ => /|_e| -> (o: Error) ensures o == (Error { code: ErrorCode::InvalidTimestampConversion }) { ErrorCode/
//@ rewrite /InvalidTimestampConversion\.into\(\)\)/ => /InvalidTimestampConversion.into() })/
//@ end

/// which tick arrays a swap walks: an uninterpreted function of the pool, the supplied accounts and the direction (fragments sparse_swap / tick_arrays / swap_tick_sequence cover the builder's parts)
pub uninterp spec fn built_seq(w: Whirlpool, wk: Pubkey, keys: Seq<Pubkey>, supplemental: Option<Seq<Pubkey>>, a_to_b: bool) -> Result<SwapTickSequence>;
pub open spec fn keys_of(v: Seq<AccountInfo<'_>>) -> Seq<Pubkey> { Seq::new(v.len(), |i: int| *v[i].key) }
pub struct SparseSwapTickSequenceBuilder<'info> { pub accounts: Vec<AccountInfo<'info>>, pub supplemental: Option<Vec<AccountInfo<'info>>> }
impl<'info> SparseSwapTickSequenceBuilder<'info> {
    pub fn new(tick_array_accounts: Vec<AccountInfo<'info>>, supplemental_tick_array_accounts: Option<Vec<AccountInfo<'info>>>) -> (r: Self)
        ensures r.accounts@ == tick_array_accounts@, r.supplemental == supplemental_tick_array_accounts
    { SparseSwapTickSequenceBuilder { accounts: tick_array_accounts, supplemental: supplemental_tick_array_accounts } }
    #[verifier::external_body]
    pub fn try_build(&self, whirlpool: &Account<'info, Whirlpool>, a_to_b: bool) -> (r: Result<SwapTickSequence>)
        ensures r == built_seq(whirlpool.data, whirlpool.k, keys_of(self.accounts@), sup_keys(self.supplemental), a_to_b),
            self.accounts@.len() == 3 ==> r == built_seq(whirlpool.data, whirlpool.k, ta_keys3(*self.accounts@[0].key, *self.accounts@[1].key, *self.accounts@[2].key), sup_keys(self.supplemental), a_to_b),
    { unimplemented!() }
}
/// the oracle (adaptive-fee) account of a pool as the accessor sees it
pub struct OracleAccessor<'info> { pub pool: Pubkey, pub oracle_key: &'info Pubkey }
pub uninterp spec fn oracle_trade_enabled(pool: Pubkey, oracle: Pubkey, ts: u64) -> Result<bool>;
pub uninterp spec fn oracle_afi(pool: Pubkey, oracle: Pubkey) -> Result<Option<AdaptiveFeeInfo>>;
pub uninterp spec fn oracle_written(pool: Pubkey, oracle: Pubkey, afi: Option<AdaptiveFeeInfo>) -> bool;
impl<'info> OracleAccessor<'info> {
    #[verifier::external_body]
    pub fn new(whirlpool: &Account<'info, Whirlpool>, oracle_account_info: AccountInfo<'info>) -> (r: Result<Self>)
        ensures r matches Ok(a) ==> a.pool == whirlpool.k && *a.oracle_key == *oracle_account_info.key { unimplemented!() }
    #[verifier::external_body]
    pub fn is_trade_enabled(&self, current_timestamp: u64) -> (r: Result<bool>) ensures r == oracle_trade_enabled(self.pool, *self.oracle_key, current_timestamp) { unimplemented!() }
    #[verifier::external_body]
    pub fn get_adaptive_fee_info(&self) -> (r: Result<Option<AdaptiveFeeInfo>>) ensures r == oracle_afi(self.pool, *self.oracle_key) { unimplemented!() }
    #[verifier::external_body]
    pub fn update_adaptive_fee_variables(&self, adaptive_fee_info: &Option<AdaptiveFeeInfo>) -> (r: Result<()>)
        ensures r is Ok ==> oracle_written(self.pool, *self.oracle_key, *adaptive_fee_info) { unimplemented!() }
}
/// fact recorded by the token CPI stubs: `amount` was moved from token account `from` to token account `to`
pub uninterp spec fn moved(from: Pubkey, to: Pubkey, amount: u64) -> bool;
#[verifier::external_body]
pub fn transfer_from_owner_to_vault<'info>(position_authority: &Signer<'info>, token_owner_account: &Account<'info, TokenAccount>, token_vault: &Account<'info, TokenAccount>, token_program: &Program<'info, Token>, amount: u64) -> (r: Result<()>)
    ensures r is Ok ==> moved(token_owner_account.k, token_vault.k, amount) { unimplemented!() }
#[verifier::external_body]
pub fn transfer_from_vault_to_owner<'info>(whirlpool: &Account<'info, Whirlpool>, token_vault: &Account<'info, TokenAccount>, token_owner_account: &Account<'info, TokenAccount>, token_program: &Program<'info, Token>, amount: u64) -> (r: Result<()>)
    ensures r is Ok ==> moved(token_vault.k, token_owner_account.k, amount) { unimplemented!() }
//@ struct events.rs Traded
pub uninterp spec fn traded_emitted(e: Traded) -> bool;
#[verifier::external_body]
pub fn emit_traded(e: Traded) ensures traded_emitted(e) { unimplemented!() }

/// reachable-state assumption of update_after_swap: the protocol's accumulated share fits u64 (it is bounded by the vault balance)
pub open spec fn fee_fits(w: Whirlpool, u: PostSwapUpdate, a_to_b: bool) -> bool {
    if a_to_b { w.protocol_fee_owed_a as int + u.next_protocol_fee as int <= U64MAX() } else { w.protocol_fee_owed_b as int + u.next_protocol_fee as int <= U64MAX() }
}
pub open spec fn pool_after(w: Whirlpool, u: PostSwapUpdate, a_to_b: bool, ts: u64) -> Whirlpool {
    crate::state_core::after_swap(w, u.next_liquidity, u.next_tick_index, u.next_sqrt_price, u.next_fee_growth_global, u.next_reward_infos, u.next_protocol_fee, a_to_b, ts)
}

//@ fn util/swap_utils.rs perform_swap -> r tags=C06,C03,C17 canary
    ensures r is Ok ==> (if a_to_b { moved(token_owner_account_a.k, token_vault_a.k, amount_a) && moved(token_vault_b.k, token_owner_account_b.k, amount_b) }
                          else { moved(token_owner_account_b.k, token_vault_b.k, amount_b) && moved(token_vault_a.k, token_owner_account_a.k, amount_a) }),
//@ end
//@ fn util/swap_utils.rs update_and_swap_whirlpool -> r tags=C06,C03,C17 canary
    requires fee_fits(old(whirlpool).data, *swap_update, is_token_fee_in_a),
    ensures final(whirlpool).k == old(whirlpool).k,
        final(whirlpool).data == pool_after(old(whirlpool).data, *swap_update, is_token_fee_in_a, reward_last_updated_timestamp),
        r is Ok ==> (if is_token_fee_in_a { moved(token_owner_account_a.k, token_vault_a.k, swap_update.amount_a) && moved(token_vault_b.k, token_owner_account_b.k, swap_update.amount_b) }
                          else { moved(token_owner_account_b.k, token_vault_b.k, swap_update.amount_b) && moved(token_vault_a.k, token_owner_account_a.k, swap_update.amount_a) }),
//@ end

//@ struct instructions/swap.rs Swap
//@ constraints instructions/swap.rs Swap
/// C15 (plain SPL swap): both vaults are the pool's vaults and both trader accounts hold the pool's mints
pub open spec fn belongs_swap(a: Swap<'_>) -> bool {
    let w = a.whirlpool.data;
    &&& a.token_vault_a.k == w.token_vault_a && a.token_vault_b.k == w.token_vault_b
    &&& a.token_owner_account_a.data.mint == w.token_mint_a && a.token_owner_account_b.data.mint == w.token_mint_b
    // the oracle account is the one derived from THIS pool's address ("oracle", pool)
    &&& *a.oracle.k == crate::anchor_shim::pda_of(seq![crate::anchor_shim::Seed::Lit(0x6f7261636c65int), crate::anchor_shim::Seed::Key(a.whirlpool.k)])
}
pub open spec fn ta_keys3(a: Pubkey, b: Pubkey, c: Pubkey) -> Seq<Pubkey> { seq![a, b, c] }
/// C03 (thresholds), C17 (the single swap that a two-hop leg must equal), C06 (what is moved): a successful swap instruction
/// applies exactly the result of the swap loop on (pool, tick arrays built from the three supplied accounts, oracle state) to the pool account,
/// has passed the trader's threshold (minimum output for exact-in, maximum input for exact-out; equality passes), moves the input from the
/// owner's input-side account to the pool's vault of that side and the output back, and reports these amounts.
pub open spec fn swap_v1_post(a0: Swap<'_>, a1: Swap<'_>, amount: u64, thr: u64, limit: u128, is_in: bool, a_to_b: bool) -> bool {
    let w0 = a0.whirlpool.data; let wk = a0.whirlpool.k; let ts = now_unix() as u64;
    &&& now_unix() >= 0
    &&& oracle_trade_enabled(wk, *a0.oracle.k, ts) == Ok::<bool, Error>(true)
    &&& built_seq(w0, wk, ta_keys3(*a0.tick_array_0.k, *a0.tick_array_1.k, *a0.tick_array_2.k), None, a_to_b) matches Ok(s)
    &&& oracle_afi(wk, *a0.oracle.k) matches Ok(afi)
    &&& swap_res(w0, s, amount, limit, is_in, a_to_b, ts, afi) matches Ok(u)
    &&& a1.whirlpool.data == pool_after(w0, *u, a_to_b, ts) && a1.whirlpool.k == wk
    &&& (is_in ==> out_of(*u, a_to_b) >= thr) && (!is_in ==> in_of(*u, a_to_b) <= thr)
    &&& oracle_written(wk, *a0.oracle.k, u.next_adaptive_fee_info)
    &&& (a_to_b ==> moved(a0.token_owner_account_a.k, a0.token_vault_a.k, u.amount_a) && moved(a0.token_vault_b.k, a0.token_owner_account_b.k, u.amount_b))
    &&& (!a_to_b ==> moved(a0.token_owner_account_b.k, a0.token_vault_b.k, u.amount_b) && moved(a0.token_vault_a.k, a0.token_owner_account_a.k, u.amount_a))
    &&& traded_emitted(Traded { whirlpool: wk, a_to_b: a_to_b, pre_sqrt_price: w0.sqrt_price, post_sqrt_price: u.next_sqrt_price, input_amount: in_of(*u, a_to_b), output_amount: out_of(*u, a_to_b),
            input_transfer_fee: 0, output_transfer_fee: 0, lp_fee: u.lp_fee, protocol_fee: u.next_protocol_fee })
}
//@ fn instructions/swap.rs handler -> r as=swap_handler tags=C03,C17,C06,C15
    requires constraints_Swap(old(ctx.accounts)),
    ensures r is Ok ==> belongs_swap(*old(ctx.accounts)), //# C15
        r is Ok ==> swap_v1_post(*old(ctx.accounts), *final(ctx.accounts), amount, other_amount_threshold, sqrt_price_limit, amount_specified_is_input, a_to_b),
//@ rewrite /emit!\(Traded \{/ => /emit_traded(Traded {/
//@ inject before /^    Ok\(\(\)\)/
    proof {
        let u = *swap_update;
        assert(amount_specified_is_input ==> out_of(u, a_to_b) >= other_amount_threshold); //# C03
        assert(!amount_specified_is_input ==> in_of(u, a_to_b) <= other_amount_threshold); //# C03
        assert(ctx.accounts.whirlpool.data == pool_after(old(ctx.accounts).whirlpool.data, u, a_to_b, now_unix() as u64)); //# C17 C06 C03
        assert(a_to_b ==> moved(ctx.accounts.token_owner_account_a.k, ctx.accounts.token_vault_a.k, u.amount_a) && moved(ctx.accounts.token_vault_b.k, ctx.accounts.token_owner_account_b.k, u.amount_b)); //# C06 C03
        assert(!a_to_b ==> moved(ctx.accounts.token_owner_account_b.k, ctx.accounts.token_vault_b.k, u.amount_b) && moved(ctx.accounts.token_vault_a.k, ctx.accounts.token_owner_account_a.k, u.amount_a)); //# C06 C03
    }
//@ end

//@ struct instructions/two_hop_swap.rs TwoHopSwap
//@ constraints instructions/two_hop_swap.rs TwoHopSwap
/// C15 (two-hop, plain SPL): the same for each of the two pools
pub open spec fn belongs_two_hop(a: TwoHopSwap<'_>) -> bool {
    let w1 = a.whirlpool_one.data; let w2 = a.whirlpool_two.data;
    &&& a.token_vault_one_a.k == w1.token_vault_a && a.token_vault_one_b.k == w1.token_vault_b
    &&& a.token_vault_two_a.k == w2.token_vault_a && a.token_vault_two_b.k == w2.token_vault_b
    &&& a.token_owner_account_one_a.data.mint == w1.token_mint_a && a.token_owner_account_one_b.data.mint == w1.token_mint_b
    &&& a.token_owner_account_two_a.data.mint == w2.token_mint_a && a.token_owner_account_two_b.data.mint == w2.token_mint_b
    &&& *a.oracle_one.k == crate::anchor_shim::pda_of(seq![crate::anchor_shim::Seed::Lit(0x6f7261636c65int), crate::anchor_shim::Seed::Key(a.whirlpool_one.k)]) && *a.oracle_two.k == crate::anchor_shim::pda_of(seq![crate::anchor_shim::Seed::Lit(0x6f7261636c65int), crate::anchor_shim::Seed::Key(a.whirlpool_two.k)])
}
/// C17 / C03 for the two-hop instruction (plain SPL tokens): success implies
///  - two distinct pools sharing the intermediate mint,
///  - exact-in: leg one is the single swap of `amount`, leg two the single swap whose input is leg one's output; exact-out: leg two is the single
///    swap for `amount`, leg one the single swap whose output is leg two's input; in both modes the intermediate amounts agree,
///  - each pool account ends as the single swap would leave it (pool_after of that leg's result),
///  - the threshold applies to the outer amount only (final output for exact-in, initial input for exact-out),
///  - each leg moves its own input and output between the trader's accounts and that pool's vaults (so the intermediate token nets to zero).
pub open spec fn leg_ok(w0: Whirlpool, wk: Pubkey, t0: Pubkey, t1: Pubkey, t2: Pubkey, ok: Pubkey, amount: u64, limit: u128, is_in: bool, a_to_b: bool, ts: u64, u: PostSwapUpdate) -> bool {
    &&& oracle_trade_enabled(wk, ok, ts) == Ok::<bool, Error>(true)
    &&& built_seq(w0, wk, ta_keys3(t0, t1, t2), None, a_to_b) matches Ok(s)
    &&& oracle_afi(wk, ok) matches Ok(afi)
    &&& swap_res(w0, s, amount, limit, is_in, a_to_b, ts, afi) matches Ok(b)
    &&& *b == u
}
pub open spec fn two_hop_v1_post(a0: TwoHopSwap<'_>, a1: TwoHopSwap<'_>, amount: u64, thr: u64, is_in: bool, a_to_b_one: bool, a_to_b_two: bool, limit_one: u128, limit_two: u128) -> bool {
    exists|u1: PostSwapUpdate, u2: PostSwapUpdate| #[trigger] two_hop_v1_legs(a0, a1, amount, thr, is_in, a_to_b_one, a_to_b_two, limit_one, limit_two, u1, u2)
}
pub open spec fn two_hop_v1_legs(a0: TwoHopSwap<'_>, a1: TwoHopSwap<'_>, amount: u64, thr: u64, is_in: bool, a_to_b_one: bool, a_to_b_two: bool, limit_one: u128, limit_two: u128, u1: PostSwapUpdate, u2: PostSwapUpdate) -> bool {
    let w1 = a0.whirlpool_one.data; let k1 = a0.whirlpool_one.k; let w2 = a0.whirlpool_two.data; let k2 = a0.whirlpool_two.k; let ts = now_unix() as u64;
    &&& now_unix() >= 0
    &&& k1 != k2
    &&& (if a_to_b_one { w1.token_mint_b } else { w1.token_mint_a }) == (if a_to_b_two { w2.token_mint_a } else { w2.token_mint_b })
    &&& {
        &&& out_of(u1, a_to_b_one) == in_of(u2, a_to_b_two)
        &&& (is_in ==> leg_ok(w1, k1, *a0.tick_array_one_0.k, *a0.tick_array_one_1.k, *a0.tick_array_one_2.k, *a0.oracle_one.k, amount, limit_one, true, a_to_b_one, ts, u1)
                    && leg_ok(w2, k2, *a0.tick_array_two_0.k, *a0.tick_array_two_1.k, *a0.tick_array_two_2.k, *a0.oracle_two.k, out_of(u1, a_to_b_one), limit_two, true, a_to_b_two, ts, u2)
                    && out_of(u2, a_to_b_two) >= thr)
        &&& (!is_in ==> leg_ok(w2, k2, *a0.tick_array_two_0.k, *a0.tick_array_two_1.k, *a0.tick_array_two_2.k, *a0.oracle_two.k, amount, limit_two, false, a_to_b_two, ts, u2)
                    && leg_ok(w1, k1, *a0.tick_array_one_0.k, *a0.tick_array_one_1.k, *a0.tick_array_one_2.k, *a0.oracle_one.k, in_of(u2, a_to_b_two), limit_one, false, a_to_b_one, ts, u1)
                    && in_of(u1, a_to_b_one) <= thr)
        &&& a1.whirlpool_one.data == pool_after(w1, u1, a_to_b_one, ts) && a1.whirlpool_one.k == k1
        &&& a1.whirlpool_two.data == pool_after(w2, u2, a_to_b_two, ts) && a1.whirlpool_two.k == k2
        &&& oracle_written(k1, *a0.oracle_one.k, u1.next_adaptive_fee_info) && oracle_written(k2, *a0.oracle_two.k, u2.next_adaptive_fee_info)
        &&& (a_to_b_one ==> moved(a0.token_owner_account_one_a.k, a0.token_vault_one_a.k, u1.amount_a) && moved(a0.token_vault_one_b.k, a0.token_owner_account_one_b.k, u1.amount_b))
        &&& (!a_to_b_one ==> moved(a0.token_owner_account_one_b.k, a0.token_vault_one_b.k, u1.amount_b) && moved(a0.token_vault_one_a.k, a0.token_owner_account_one_a.k, u1.amount_a))
        &&& (a_to_b_two ==> moved(a0.token_owner_account_two_a.k, a0.token_vault_two_a.k, u2.amount_a) && moved(a0.token_vault_two_b.k, a0.token_owner_account_two_b.k, u2.amount_b))
        &&& (!a_to_b_two ==> moved(a0.token_owner_account_two_b.k, a0.token_vault_two_b.k, u2.amount_b) && moved(a0.token_vault_two_a.k, a0.token_owner_account_two_a.k, u2.amount_a))
        // each leg reports ITS pool, direction, prices before / after, moved amounts and fee split (plain SPL tokens: no transfer fee)
        &&& traded_emitted(Traded { whirlpool: k1, a_to_b: a_to_b_one, pre_sqrt_price: w1.sqrt_price, post_sqrt_price: u1.next_sqrt_price, input_amount: in_of(u1, a_to_b_one), output_amount: out_of(u1, a_to_b_one),
                input_transfer_fee: 0, output_transfer_fee: 0, lp_fee: u1.lp_fee, protocol_fee: u1.next_protocol_fee })
        &&& traded_emitted(Traded { whirlpool: k2, a_to_b: a_to_b_two, pre_sqrt_price: w2.sqrt_price, post_sqrt_price: u2.next_sqrt_price, input_amount: in_of(u2, a_to_b_two), output_amount: out_of(u2, a_to_b_two),
                input_transfer_fee: 0, output_transfer_fee: 0, lp_fee: u2.lp_fee, protocol_fee: u2.next_protocol_fee })
    }
}
//@ fn instructions/two_hop_swap.rs handler -> r as=two_hop_swap_handler tags=C17,C03
    requires constraints_TwoHopSwap(old(ctx.accounts)),
    ensures r is Ok ==> belongs_two_hop(*old(ctx.accounts)), //# C15
        r is Ok ==> two_hop_v1_post(*old(ctx.accounts), *final(ctx.accounts), amount, other_amount_threshold, amount_specified_is_input, a_to_b_one, a_to_b_two, sqrt_price_limit_one, sqrt_price_limit_two),
//@ rewrite /emit!\(Traded \{/ => /emit_traded(Traded {/ 2
//@ inject before /^    Ok\(\(\)\)/
    proof {
        let u1 = *swap_update_one; let u2 = *swap_update_two; let a0 = *old(ctx.accounts);
        assert(a0.whirlpool_one.k != a0.whirlpool_two.k); //# C17 C15
        assert(out_of(u1, a_to_b_one) == in_of(u2, a_to_b_two)); //# C17
        assert(amount_specified_is_input ==> out_of(u2, a_to_b_two) >= other_amount_threshold); //# C03 C17
        assert(!amount_specified_is_input ==> in_of(u1, a_to_b_one) <= other_amount_threshold); //# C03 C17
        assert(two_hop_v1_legs(a0, *ctx.accounts, amount, other_amount_threshold, amount_specified_is_input, a_to_b_one, a_to_b_two, sqrt_price_limit_one, sqrt_price_limit_two, u1, u2)); //# C17
    }
//@ end

// ------------------------------------------------------------------ v2 (token-extension aware) handlers
//@ tags C03 C16 C17
pub struct Interface<'info, T> { pub k: Pubkey, pub p: core::marker::PhantomData<&'info T> }
impl<'info, T> crate::anchor_shim::SKey for Interface<'info, T> { open spec fn skey(&self) -> Pubkey { self.k } }
pub struct TokenInterface {}
pub struct Memo {}
pub use crate::token_v2::Mint;
impl<'a> crate::anchor_shim::SOwner for InterfaceAccount<'a, Mint> { open spec fn sowner(&self) -> Pubkey { self.data.owner_program } }
//@ enum util/v2/remaining_accounts_utils.rs AccountsType
//@ struct util/v2/remaining_accounts_utils.rs RemainingAccountsSlice RemainingAccountsInfo ParsedRemainingAccounts
#[verifier::external_body]
pub fn parse_remaining_accounts<'info>(remaining_accounts: &[AccountInfo<'info>], remaining_accounts_info: &Option<RemainingAccountsInfo>, valid_accounts_type_list: &[AccountsType]) -> (r: Result<ParsedRemainingAccounts<'info>>)
    ensures r == parsed_remaining(remaining_accounts@, *remaining_accounts_info)
{ unimplemented!() }
pub uninterp spec fn parsed_remaining<'info>(rem: Seq<AccountInfo<'info>>, info: Option<RemainingAccountsInfo>) -> Result<ParsedRemainingAccounts<'info>>;
// ------------------------------------------------------------------ parse_remaining_accounts: the slot a slice is stored in (segment of the real body)
//@ const util/v2/remaining_accounts_utils.rs pub MAX_SUPPLEMENTAL_TICK_ARRAYS_LEN
/// the field of the parsed result that belongs to an accounts type
pub open spec fn slot_of<'info>(p: ParsedRemainingAccounts<'info>, t: AccountsType) -> Option<Vec<AccountInfo<'info>>> { match t { AccountsType::TransferHookA => p.transfer_hook_a, AccountsType::TransferHookB => p.transfer_hook_b, AccountsType::TransferHookReward => p.transfer_hook_reward, AccountsType::TransferHookInput => p.transfer_hook_input, AccountsType::TransferHookIntermediate => p.transfer_hook_intermediate, AccountsType::TransferHookOutput => p.transfer_hook_output, AccountsType::SupplementalTickArrays => p.supplemental_tick_arrays, AccountsType::SupplementalTickArraysOne => p.supplemental_tick_arrays_one, AccountsType::SupplementalTickArraysTwo => p.supplemental_tick_arrays_two, AccountsType::TransferHookDepositA => p.transfer_hook_deposit_a, AccountsType::TransferHookDepositB => p.transfer_hook_deposit_b, AccountsType::TransferHookWithdrawalA => p.transfer_hook_withdrawal_a, AccountsType::TransferHookWithdrawalB => p.transfer_hook_withdrawal_b } }
pub open spec fn is_supplemental(t: AccountsType) -> bool { t is SupplementalTickArrays || t is SupplementalTickArraysOne || t is SupplementalTickArraysTwo }
/// C15 / C16: a slice of remaining accounts is stored in the slot of ITS accounts type and nowhere else; a second slice of the same type is rejected (so no slice is
/// silently dropped), and at most three supplemental tick arrays are accepted per slot
//@ seg util/v2/remaining_accounts_utils.rs parse_remaining_accounts from=/^        match slice\.accounts_type \{/ to=/^    \}\n\n    Ok\(parsed_remaining_accounts\)/ var=parsed_remaining_accounts ret=Ok(parsed_remaining_accounts)
fn pra_store_slice<'info>(parsed_remaining_accounts_in: ParsedRemainingAccounts<'info>, slice: &RemainingAccountsSlice, accounts: Vec<AccountInfo<'info>>) -> (r: Result<ParsedRemainingAccounts<'info>>)
    ensures
        r is Ok <==> (slot_of(parsed_remaining_accounts_in, slice.accounts_type) is None && (is_supplemental(slice.accounts_type) ==> accounts@.len() <= 3)), //# C15 C16
        r matches Ok(p) ==> slot_of(p, slice.accounts_type) == Some(accounts)
            && (forall|t: AccountsType| t != slice.accounts_type ==> #[trigger] slot_of(p, t) == slot_of(parsed_remaining_accounts_in, t)), //# C15 C16
//@ end
pub open spec fn sup_keys(v: Option<Vec<AccountInfo<'_>>>) -> Option<Seq<Pubkey>> { match v { Some(x) => Some(keys_of(x@)), None => None } }
pub mod transfer_memo { pub const TRANSFER_MEMO_SWAP: &'static str = "Orca Trade"; }
#[verifier::external_body]
pub fn memo_bytes(s: &'static str) -> (r: &'static [u8]) { s.as_bytes() }
/// C16 / C15: a token-extension transfer is made WITH the mint account, the token program and the transfer-hook accounts of the token side it moves
pub uninterp spec fn moved_with(from: Pubkey, to: Pubkey, mint: Pubkey, program: Pubkey, hooks: int) -> bool;
pub uninterp spec fn hook_tag<'info>(h: Option<Vec<AccountInfo<'info>>>) -> int;
#[verifier::external_body]
pub fn transfer_from_owner_to_vault_v2<'info>(authority: &Signer<'info>, token_mint: &InterfaceAccount<'info, Mint>, token_owner_account: &InterfaceAccount<'info, TokenAccount>, token_vault: &InterfaceAccount<'info, TokenAccount>,
    token_program: &Interface<'info, TokenInterface>, memo_program: &Program<'info, Memo>, transfer_hook_accounts: &Option<Vec<AccountInfo<'info>>>, amount: u64) -> (r: Result<()>)
    ensures r is Ok ==> moved(*token_owner_account.info.key, *token_vault.info.key, amount)
        && moved_with(*token_owner_account.info.key, *token_vault.info.key, *token_mint.info.key, token_program.k, hook_tag(*transfer_hook_accounts)) { unimplemented!() }
#[verifier::external_body]
pub fn transfer_from_vault_to_owner_v2<'info>(whirlpool: &Account<'info, Whirlpool>, token_mint: &InterfaceAccount<'info, Mint>, token_vault: &InterfaceAccount<'info, TokenAccount>, token_owner_account: &InterfaceAccount<'info, TokenAccount>,
    token_program: &Interface<'info, TokenInterface>, memo_program: &Program<'info, Memo>, transfer_hook_accounts: &Option<Vec<AccountInfo<'info>>>, amount: u64, memo: &[u8]) -> (r: Result<()>)
    ensures r is Ok ==> moved(*token_vault.info.key, *token_owner_account.info.key, amount)
        && moved_with(*token_vault.info.key, *token_owner_account.info.key, *token_mint.info.key, token_program.k, hook_tag(*transfer_hook_accounts)) { unimplemented!() }

//@ fn util/v2/swap_utils.rs perform_swap_v2 -> r tags=C06,C03,C17,C16 canary
    ensures r is Ok ==> (if a_to_b { moved(*token_owner_account_a.info.key, *token_vault_a.info.key, amount_a) && moved(*token_vault_b.info.key, *token_owner_account_b.info.key, amount_b) }
                          else { moved(*token_owner_account_b.info.key, *token_vault_b.info.key, amount_b) && moved(*token_vault_a.info.key, *token_owner_account_a.info.key, amount_a) }),
        r is Ok ==> (if a_to_b { moved_with(*token_owner_account_a.info.key, *token_vault_a.info.key, *token_mint_a.info.key, token_program_a.k, hook_tag(*transfer_hook_accounts_a)) && moved_with(*token_vault_b.info.key, *token_owner_account_b.info.key, *token_mint_b.info.key, token_program_b.k, hook_tag(*transfer_hook_accounts_b)) } else { moved_with(*token_owner_account_b.info.key, *token_vault_b.info.key, *token_mint_b.info.key, token_program_b.k, hook_tag(*transfer_hook_accounts_b)) && moved_with(*token_vault_a.info.key, *token_owner_account_a.info.key, *token_mint_a.info.key, token_program_a.k, hook_tag(*transfer_hook_accounts_a)) }), //# C16 C15
//@ end
//@ fn util/v2/swap_utils.rs update_and_swap_whirlpool_v2 -> r tags=C06,C03,C17,C16 canary
    requires fee_fits(old(whirlpool).data, *swap_update, is_token_fee_in_a),
    ensures final(whirlpool).k == old(whirlpool).k,
        final(whirlpool).data == pool_after(old(whirlpool).data, *swap_update, is_token_fee_in_a, reward_last_updated_timestamp),
        r is Ok ==> (if is_token_fee_in_a { moved(*token_owner_account_a.info.key, *token_vault_a.info.key, swap_update.amount_a) && moved(*token_vault_b.info.key, *token_owner_account_b.info.key, swap_update.amount_b) }
                          else { moved(*token_owner_account_b.info.key, *token_vault_b.info.key, swap_update.amount_b) && moved(*token_vault_a.info.key, *token_owner_account_a.info.key, swap_update.amount_a) }),
        r is Ok ==> (if is_token_fee_in_a { moved_with(*token_owner_account_a.info.key, *token_vault_a.info.key, *token_mint_a.info.key, token_program_a.k, hook_tag(*transfer_hook_accounts_a)) && moved_with(*token_vault_b.info.key, *token_owner_account_b.info.key, *token_mint_b.info.key, token_program_b.k, hook_tag(*transfer_hook_accounts_b)) } else { moved_with(*token_owner_account_b.info.key, *token_vault_b.info.key, *token_mint_b.info.key, token_program_b.k, hook_tag(*transfer_hook_accounts_b)) && moved_with(*token_vault_a.info.key, *token_owner_account_a.info.key, *token_mint_a.info.key, token_program_a.k, hook_tag(*transfer_hook_accounts_a)) }), //# C16 C15
//@ end
/// two-hop: the input goes from the trader to pool one, leg one's output goes from pool one's vault straight into pool two's vault, the final output to the trader
//@ fn util/v2/swap_utils.rs update_and_two_hop_swap_whirlpool_v2 -> r tags=C17,C06,C16 canary
    requires fee_fits(old(whirlpool_one).data, *swap_update_one, is_token_fee_in_one_a), fee_fits(old(whirlpool_two).data, *swap_update_two, is_token_fee_in_two_a),
    ensures final(whirlpool_one).k == old(whirlpool_one).k, final(whirlpool_two).k == old(whirlpool_two).k,
        final(whirlpool_one).data == pool_after(old(whirlpool_one).data, *swap_update_one, is_token_fee_in_one_a, reward_last_updated_timestamp),
        final(whirlpool_two).data == pool_after(old(whirlpool_two).data, *swap_update_two, is_token_fee_in_two_a, reward_last_updated_timestamp),
        r is Ok ==> moved(*token_owner_account_input.info.key, *token_vault_one_input.info.key, in_of(*swap_update_one, is_token_fee_in_one_a))
            && moved(*token_vault_one_intermediate.info.key, *token_vault_two_intermediate.info.key, out_of(*swap_update_one, is_token_fee_in_one_a))
            && moved(*token_vault_two_output.info.key, *token_owner_account_output.info.key, out_of(*swap_update_two, is_token_fee_in_two_a)),
        r is Ok ==> moved_with(*token_owner_account_input.info.key, *token_vault_one_input.info.key, *token_mint_input.info.key, token_program_input.k, hook_tag(*transfer_hook_accounts_input))
            && moved_with(*token_vault_one_intermediate.info.key, *token_vault_two_intermediate.info.key, *token_mint_intermediate.info.key, token_program_intermediate.k, hook_tag(*transfer_hook_accounts_intermediate))
            && moved_with(*token_vault_two_output.info.key, *token_owner_account_output.info.key, *token_mint_output.info.key, token_program_output.k, hook_tag(*transfer_hook_accounts_output)), //# C16 C15 C17
//@ end

//@ struct instructions/v2/swap.rs SwapV2
//@ constraints instructions/v2/swap.rs SwapV2
/// C15 (swap_v2): additionally the mint accounts are the pool's mints and each token program is the program that owns its mint
pub open spec fn belongs_swap_v2(a: SwapV2<'_>) -> bool {
    let w = a.whirlpool.data;
    &&& *a.token_vault_a.info.key == w.token_vault_a && *a.token_vault_b.info.key == w.token_vault_b
    &&& a.token_owner_account_a.data.mint == w.token_mint_a && a.token_owner_account_b.data.mint == w.token_mint_b
    &&& *a.token_mint_a.info.key == w.token_mint_a && *a.token_mint_b.info.key == w.token_mint_b
    &&& a.token_program_a.k == a.token_mint_a.data.owner_program && a.token_program_b.k == a.token_mint_b.data.owner_program
    &&& *a.oracle.k == crate::anchor_shim::pda_of(seq![crate::anchor_shim::Seed::Lit(0x6f7261636c65int), crate::anchor_shim::Seed::Key(a.whirlpool.k)])
}
/// C03 / C16 for swap_v2: as swap_v1_post, with the transfer-fee aware computation (swfe_post) in place of the bare loop; the minimum-output threshold
/// is compared with what the trader actually receives (curve output minus the OUTPUT mint's fee), the maximum-input threshold with what the trader is
/// charged (fee-included input); the event reports the moved amounts and the fees the two mints withhold from them.
pub open spec fn swap_v2_legs(a0: SwapV2<'_>, a1: SwapV2<'_>, s: SwapTickSequence, afi: Option<AdaptiveFeeInfo>, amount: u64, thr: u64, limit: u128, is_in: bool, a_to_b: bool, u: PostSwapUpdate) -> bool {
    let w0 = a0.whirlpool.data; let wk = a0.whirlpool.k; let ts = now_unix() as u64;
    let min = if a_to_b { a0.token_mint_a.data } else { a0.token_mint_b.data }; let mout = if a_to_b { a0.token_mint_b.data } else { a0.token_mint_a.data };
    &&& swfe_post(w0, a0.token_mint_a.data, a0.token_mint_b.data, s, amount, limit, is_in, a_to_b, ts, afi, u)
    &&& a1.whirlpool.data == pool_after(w0, u, a_to_b, ts) && a1.whirlpool.k == wk
    &&& (is_in ==> out_of(u, a_to_b) as int - mint_fee(mout, out_of(u, a_to_b) as int) >= thr) && (!is_in ==> in_of(u, a_to_b) <= thr)
    &&& oracle_written(wk, *a0.oracle.k, u.next_adaptive_fee_info)
    &&& (a_to_b ==> moved(*a0.token_owner_account_a.info.key, *a0.token_vault_a.info.key, u.amount_a) && moved(*a0.token_vault_b.info.key, *a0.token_owner_account_b.info.key, u.amount_b))
    &&& (!a_to_b ==> moved(*a0.token_owner_account_b.info.key, *a0.token_vault_b.info.key, u.amount_b) && moved(*a0.token_vault_a.info.key, *a0.token_owner_account_a.info.key, u.amount_a))
    &&& event_for(wk, w0, a_to_b, u, min, mout)
}
/// C16 / C15: each of the two transfers of swap_v2 is made with the mint account, token program and transfer-hook accounts of ITS token side
pub open spec fn v2_transfers_wired(a0: SwapV2<'_>, pr: ParsedRemainingAccounts<'_>, a_to_b: bool) -> bool {
    let oa = *a0.token_owner_account_a.info.key; let va = *a0.token_vault_a.info.key; let ob = *a0.token_owner_account_b.info.key; let vb = *a0.token_vault_b.info.key;
    let ma = *a0.token_mint_a.info.key; let mb = *a0.token_mint_b.info.key;
    if a_to_b { moved_with(oa, va, ma, a0.token_program_a.k, hook_tag(pr.transfer_hook_a)) && moved_with(vb, ob, mb, a0.token_program_b.k, hook_tag(pr.transfer_hook_b)) }
    else { moved_with(ob, vb, mb, a0.token_program_b.k, hook_tag(pr.transfer_hook_b)) && moved_with(va, oa, ma, a0.token_program_a.k, hook_tag(pr.transfer_hook_a)) }
}
pub open spec fn swap_v2_post(a0: SwapV2<'_>, a1: SwapV2<'_>, rem: Seq<AccountInfo<'_>>, rinfo: Option<RemainingAccountsInfo>, amount: u64, thr: u64, limit: u128, is_in: bool, a_to_b: bool) -> bool {
    let w0 = a0.whirlpool.data; let wk = a0.whirlpool.k; let ts = now_unix() as u64;
    &&& now_unix() >= 0
    &&& oracle_trade_enabled(wk, *a0.oracle.k, ts) == Ok::<bool, Error>(true)
    &&& parsed_remaining(rem, rinfo) matches Ok(pr)
    &&& built_seq(w0, wk, ta_keys3(*a0.tick_array_0.k, *a0.tick_array_1.k, *a0.tick_array_2.k), sup_keys(pr.supplemental_tick_arrays), a_to_b) matches Ok(s)
    &&& oracle_afi(wk, *a0.oracle.k) matches Ok(afi)
    &&& exists|u: PostSwapUpdate| #[trigger] swap_v2_legs(a0, a1, s, afi, amount, thr, limit, is_in, a_to_b, u)
    &&& v2_transfers_wired(a0, pr, a_to_b)
}
//@ fn instructions/v2/swap.rs handler -> r as=swap_v2_handler tags=C03,C16,C17
    requires constraints_SwapV2(old(ctx.accounts)),
    ensures r is Ok ==> belongs_swap_v2(*old(ctx.accounts)), //# C15
        r is Ok ==> swap_v2_post(*old(ctx.accounts), *final(ctx.accounts), ctx.remaining_accounts@, remaining_accounts_info, amount, other_amount_threshold, sqrt_price_limit, amount_specified_is_input, a_to_b),
//@ rewrite /emit!\(Traded \{/ => /emit_traded(Traded {/
//@ rewrite /transfer_memo::TRANSFER_MEMO_SWAP\.as_bytes\(\)/ => /memo_bytes(transfer_memo::TRANSFER_MEMO_SWAP)/
//@ inject before /^    Ok\(\(\)\)/
    proof {
        let a0 = *old(ctx.accounts); let u = *swap_update;
        let mout = if a_to_b { a0.token_mint_b.data } else { a0.token_mint_a.data };
        assert(amount_specified_is_input ==> out_of(u, a_to_b) as int - mint_fee(mout, out_of(u, a_to_b) as int) >= other_amount_threshold); //# C03 C16
        assert(!amount_specified_is_input ==> in_of(u, a_to_b) <= other_amount_threshold); //# C03
        assert(event_for(a0.whirlpool.k, a0.whirlpool.data, a_to_b, u, if a_to_b { a0.token_mint_a.data } else { a0.token_mint_b.data }, mout)); //# C16
        let pr = parsed_remaining(ctx.remaining_accounts@, remaining_accounts_info)->Ok_0;
        let s = built_seq(a0.whirlpool.data, a0.whirlpool.k, ta_keys3(*a0.tick_array_0.k, *a0.tick_array_1.k, *a0.tick_array_2.k), sup_keys(pr.supplemental_tick_arrays), a_to_b)->Ok_0;
        assert(swap_v2_legs(a0, *ctx.accounts, s, adaptive_fee_info, amount, other_amount_threshold, sqrt_price_limit, amount_specified_is_input, a_to_b, u)); //# C03 C16 C17
    }
//@ end

//@ struct instructions/v2/two_hop_swap.rs TwoHopSwapV2
//@ constraints instructions/v2/two_hop_swap.rs TwoHopSwapV2 method:input_token_mint method:output_token_mint method:input_token_vault method:output_token_vault
/// C15 (two_hop_swap_v2): input / intermediate / output mints and the four vaults are those of the two pools for the two directions, the trader's
/// accounts hold the input and the output mint, and each token program owns its mint
pub open spec fn belongs_two_hop_v2(a: TwoHopSwapV2<'_>, a_to_b_one: bool, a_to_b_two: bool) -> bool {
    let w1 = a.whirlpool_one.data; let w2 = a.whirlpool_two.data;
    &&& *a.token_mint_input.info.key == (if a_to_b_one { w1.token_mint_a } else { w1.token_mint_b })
    &&& *a.token_mint_intermediate.info.key == (if a_to_b_one { w1.token_mint_b } else { w1.token_mint_a })
    &&& *a.token_mint_output.info.key == (if a_to_b_two { w2.token_mint_b } else { w2.token_mint_a })
    &&& *a.token_vault_one_input.info.key == (if a_to_b_one { w1.token_vault_a } else { w1.token_vault_b })
    &&& *a.token_vault_one_intermediate.info.key == (if a_to_b_one { w1.token_vault_b } else { w1.token_vault_a })
    &&& *a.token_vault_two_intermediate.info.key == (if a_to_b_two { w2.token_vault_a } else { w2.token_vault_b })
    &&& *a.token_vault_two_output.info.key == (if a_to_b_two { w2.token_vault_b } else { w2.token_vault_a })
    &&& a.token_owner_account_input.data.mint == *a.token_mint_input.info.key && a.token_owner_account_output.data.mint == *a.token_mint_output.info.key
    &&& a.token_program_input.k == a.token_mint_input.data.owner_program && a.token_program_intermediate.k == a.token_mint_intermediate.data.owner_program
        && a.token_program_output.k == a.token_mint_output.data.owner_program
    &&& *a.oracle_one.k == crate::anchor_shim::pda_of(seq![crate::anchor_shim::Seed::Lit(0x6f7261636c65int), crate::anchor_shim::Seed::Key(a.whirlpool_one.k)]) && *a.oracle_two.k == crate::anchor_shim::pda_of(seq![crate::anchor_shim::Seed::Lit(0x6f7261636c65int), crate::anchor_shim::Seed::Key(a.whirlpool_two.k)])
}
pub open spec fn event_for(wk: Pubkey, w0: Whirlpool, a_to_b: bool, u: PostSwapUpdate, min: Mint, mout: Mint) -> bool {
    exists|e: Traded| #[trigger] traded_emitted(e) && e.whirlpool == wk && e.a_to_b == a_to_b && e.pre_sqrt_price == w0.sqrt_price && e.post_sqrt_price == u.next_sqrt_price
        && e.input_amount == in_of(u, a_to_b) && e.output_amount == out_of(u, a_to_b)
        && e.input_transfer_fee as int == mint_fee(min, in_of(u, a_to_b) as int) && e.output_transfer_fee as int == mint_fee(mout, out_of(u, a_to_b) as int)
        && e.lp_fee == u.lp_fee && e.protocol_fee == u.next_protocol_fee
}
/// C17 / C03 / C16 for two_hop_swap_v2: each leg is the transfer-fee aware single-swap computation (swfe_post) on its own pool, tick arrays and oracle;
/// exact-in feeds leg one's output into leg two, exact-out asks leg one for what leg two's input leaves after the intermediate mint's fee (the
/// intermediate token moves vault to vault, so that fee is taken once); the intermediate amounts agree; the threshold applies to the outer amount
/// (what the trader receives after the output mint's fee / what the trader is charged); three transfers: trader -> pool one, pool one -> pool two, pool two -> trader.
pub open spec fn two_hop_v2_legs(a0: TwoHopSwapV2<'_>, a1: TwoHopSwapV2<'_>, s1: SwapTickSequence, s2: SwapTickSequence, afi1: Option<AdaptiveFeeInfo>, afi2: Option<AdaptiveFeeInfo>,
    amount: u64, thr: u64, is_in: bool, a_to_b_one: bool, a_to_b_two: bool, limit_one: u128, limit_two: u128, u1: PostSwapUpdate, u2: PostSwapUpdate) -> bool {
    let w1 = a0.whirlpool_one.data; let k1 = a0.whirlpool_one.k; let w2 = a0.whirlpool_two.data; let k2 = a0.whirlpool_two.k; let ts = now_unix() as u64;
    let m_in = a0.token_mint_input.data; let m_mid = a0.token_mint_intermediate.data; let m_out = a0.token_mint_output.data;
    let ma1 = if a_to_b_one { m_in } else { m_mid }; let mb1 = if a_to_b_one { m_mid } else { m_in };
    let ma2 = if a_to_b_two { m_mid } else { m_out }; let mb2 = if a_to_b_two { m_out } else { m_mid };
    &&& out_of(u1, a_to_b_one) == in_of(u2, a_to_b_two)
    &&& (is_in ==> swfe_post(w1, ma1, mb1, s1, amount, limit_one, true, a_to_b_one, ts, afi1, u1)
                && swfe_post(w2, ma2, mb2, s2, out_of(u1, a_to_b_one), limit_two, true, a_to_b_two, ts, afi2, u2)
                && out_of(u2, a_to_b_two) as int - mint_fee(m_out, out_of(u2, a_to_b_two) as int) >= thr)
    &&& (!is_in ==> swfe_post(w2, ma2, mb2, s2, amount, limit_two, false, a_to_b_two, ts, afi2, u2)
                && swfe_post(w1, ma1, mb1, s1, (in_of(u2, a_to_b_two) as int - mint_fee(m_mid, in_of(u2, a_to_b_two) as int)) as u64, limit_one, false, a_to_b_one, ts, afi1, u1)
                && in_of(u1, a_to_b_one) <= thr)
    &&& a1.whirlpool_one.data == pool_after(w1, u1, a_to_b_one, ts) && a1.whirlpool_one.k == k1
    &&& a1.whirlpool_two.data == pool_after(w2, u2, a_to_b_two, ts) && a1.whirlpool_two.k == k2
    &&& oracle_written(k1, *a0.oracle_one.k, u1.next_adaptive_fee_info) && oracle_written(k2, *a0.oracle_two.k, u2.next_adaptive_fee_info)
    &&& moved(*a0.token_owner_account_input.info.key, *a0.token_vault_one_input.info.key, in_of(u1, a_to_b_one))
    &&& moved(*a0.token_vault_one_intermediate.info.key, *a0.token_vault_two_intermediate.info.key, out_of(u1, a_to_b_one))
    &&& moved(*a0.token_vault_two_output.info.key, *a0.token_owner_account_output.info.key, out_of(u2, a_to_b_two))
    &&& event_for(k1, w1, a_to_b_one, u1, m_in, m_mid) && event_for(k2, w2, a_to_b_two, u2, m_mid, m_out)
}
/// C16 / C15 / C17: the three transfers of two_hop_swap_v2 use the mint account, token program and transfer-hook accounts of the input, intermediate and output token
pub open spec fn two_hop_transfers_wired(a0: TwoHopSwapV2<'_>, pr: ParsedRemainingAccounts<'_>) -> bool {
    moved_with(*a0.token_owner_account_input.info.key, *a0.token_vault_one_input.info.key, *a0.token_mint_input.info.key, a0.token_program_input.k, hook_tag(pr.transfer_hook_input))
    && moved_with(*a0.token_vault_one_intermediate.info.key, *a0.token_vault_two_intermediate.info.key, *a0.token_mint_intermediate.info.key, a0.token_program_intermediate.k, hook_tag(pr.transfer_hook_intermediate))
    && moved_with(*a0.token_vault_two_output.info.key, *a0.token_owner_account_output.info.key, *a0.token_mint_output.info.key, a0.token_program_output.k, hook_tag(pr.transfer_hook_output))
}
pub open spec fn two_hop_v2_post(a0: TwoHopSwapV2<'_>, a1: TwoHopSwapV2<'_>, rem: Seq<AccountInfo<'_>>, rinfo: Option<RemainingAccountsInfo>, amount: u64, thr: u64, is_in: bool, a_to_b_one: bool, a_to_b_two: bool, limit_one: u128, limit_two: u128) -> bool {
    let w1 = a0.whirlpool_one.data; let k1 = a0.whirlpool_one.k; let w2 = a0.whirlpool_two.data; let k2 = a0.whirlpool_two.k; let ts = now_unix() as u64;
    &&& now_unix() >= 0
    &&& k1 != k2
    &&& (if a_to_b_one { w1.token_mint_b } else { w1.token_mint_a }) == (if a_to_b_two { w2.token_mint_a } else { w2.token_mint_b })
    &&& oracle_trade_enabled(k1, *a0.oracle_one.k, ts) == Ok::<bool, Error>(true) && oracle_trade_enabled(k2, *a0.oracle_two.k, ts) == Ok::<bool, Error>(true)
    &&& parsed_remaining(rem, rinfo) matches Ok(pr)
    &&& built_seq(w1, k1, ta_keys3(*a0.tick_array_one_0.k, *a0.tick_array_one_1.k, *a0.tick_array_one_2.k), sup_keys(pr.supplemental_tick_arrays_one), a_to_b_one) matches Ok(s1)
    &&& built_seq(w2, k2, ta_keys3(*a0.tick_array_two_0.k, *a0.tick_array_two_1.k, *a0.tick_array_two_2.k), sup_keys(pr.supplemental_tick_arrays_two), a_to_b_two) matches Ok(s2)
    &&& oracle_afi(k1, *a0.oracle_one.k) matches Ok(afi1)
    &&& oracle_afi(k2, *a0.oracle_two.k) matches Ok(afi2)
    &&& exists|u1: PostSwapUpdate, u2: PostSwapUpdate| #[trigger] two_hop_v2_legs(a0, a1, s1, s2, afi1, afi2, amount, thr, is_in, a_to_b_one, a_to_b_two, limit_one, limit_two, u1, u2)
    &&& two_hop_transfers_wired(a0, pr)
}
//@ fn instructions/v2/two_hop_swap.rs handler -> r as=two_hop_swap_v2_handler tags=C17,C03,C16
    requires constraints_TwoHopSwapV2(old(ctx.accounts), a_to_b_one, a_to_b_two),
    ensures r is Ok ==> belongs_two_hop_v2(*old(ctx.accounts), a_to_b_one, a_to_b_two), //# C15
        r is Ok ==> two_hop_v2_post(*old(ctx.accounts), *final(ctx.accounts), ctx.remaining_accounts@, remaining_accounts_info, amount, other_amount_threshold, amount_specified_is_input, a_to_b_one, a_to_b_two, sqrt_price_limit_one, sqrt_price_limit_two),
//@ rewrite /emit!\(Traded \{/ => /emit_traded(Traded {/ 2
//@ rewrite /transfer_memo::TRANSFER_MEMO_SWAP\.as_bytes\(\)/ => /memo_bytes(transfer_memo::TRANSFER_MEMO_SWAP)/
//@ inject before /^    Ok\(\(\)\)/
    proof {
        let a0 = *old(ctx.accounts); let u1 = *swap_update_one; let u2 = *swap_update_two;
        let m_in = a0.token_mint_input.data; let m_mid = a0.token_mint_intermediate.data; let m_out = a0.token_mint_output.data;
        assert(a0.whirlpool_one.k != a0.whirlpool_two.k); //# C17 C15
        assert(out_of(u1, a_to_b_one) == in_of(u2, a_to_b_two)); //# C17
        assert(amount_specified_is_input ==> out_of(u2, a_to_b_two) as int - mint_fee(m_out, out_of(u2, a_to_b_two) as int) >= other_amount_threshold); //# C03 C17 C16
        assert(!amount_specified_is_input ==> in_of(u1, a_to_b_one) <= other_amount_threshold); //# C03 C17
        assert(event_for(a0.whirlpool_one.k, a0.whirlpool_one.data, a_to_b_one, u1, m_in, m_mid) && event_for(a0.whirlpool_two.k, a0.whirlpool_two.data, a_to_b_two, u2, m_mid, m_out)); //# C16
        let pr = parsed_remaining(ctx.remaining_accounts@, remaining_accounts_info)->Ok_0;
        let s1 = built_seq(a0.whirlpool_one.data, a0.whirlpool_one.k, ta_keys3(*a0.tick_array_one_0.k, *a0.tick_array_one_1.k, *a0.tick_array_one_2.k), sup_keys(pr.supplemental_tick_arrays_one), a_to_b_one)->Ok_0;
        let s2 = built_seq(a0.whirlpool_two.data, a0.whirlpool_two.k, ta_keys3(*a0.tick_array_two_0.k, *a0.tick_array_two_1.k, *a0.tick_array_two_2.k), sup_keys(pr.supplemental_tick_arrays_two), a_to_b_two)->Ok_0;
        assert(two_hop_v2_legs(a0, *ctx.accounts, s1, s2, adaptive_fee_info_one, adaptive_fee_info_two, amount, other_amount_threshold, amount_specified_is_input, a_to_b_one, a_to_b_two, sqrt_price_limit_one, sqrt_price_limit_two, u1, u2)); //# C17
    }
//@ end

// ------------------------------------------------------------------ reachability canaries (vacuity guard, see tools/run.py)
/// reachability canary (must FAIL): the same body with the contract 'never succeeds'
//@ fn instructions/v2/swap.rs swap_with_transfer_fee_extension -> r as=reach_canary_swap_with_transfer_fee_extension tags=C16,C03
    ensures r is Err,
//@ end
/// reachability canary (must FAIL): the same body with the contract 'never succeeds'
//@ fn instructions/swap.rs handler -> r as=reach_canary_swap_handler tags=C03,C17,C06,C15
    requires constraints_Swap(old(ctx.accounts)),
    ensures r is Err,
//@ rewrite /emit!\(Traded \{/ => /emit_traded(Traded {/
//@ end
/// reachability canary (must FAIL): the same body with the contract 'never succeeds'
//@ fn instructions/two_hop_swap.rs handler -> r as=reach_canary_two_hop_swap_handler tags=C17,C03
    requires constraints_TwoHopSwap(old(ctx.accounts)),
    ensures r is Err,
//@ rewrite /emit!\(Traded \{/ => /emit_traded(Traded {/ 2
//@ end
/// reachability canary (must FAIL): the same body with the contract 'never succeeds'
//@ fn instructions/v2/swap.rs handler -> r as=reach_canary_swap_v2_handler tags=C03,C16,C17
    requires constraints_SwapV2(old(ctx.accounts)),
    ensures r is Err,
//@ rewrite /emit!\(Traded \{/ => /emit_traded(Traded {/
//@ rewrite /transfer_memo::TRANSFER_MEMO_SWAP\.as_bytes\(\)/ => /memo_bytes(transfer_memo::TRANSFER_MEMO_SWAP)/
//@ end
/// reachability canary (must FAIL): the same body with the contract 'never succeeds'
//@ fn instructions/v2/two_hop_swap.rs handler -> r as=reach_canary_two_hop_swap_v2_handler tags=C17,C03,C16
    requires constraints_TwoHopSwapV2(old(ctx.accounts), a_to_b_one, a_to_b_two),
    ensures r is Err,
//@ rewrite /emit!\(Traded \{/ => /emit_traded(Traded {/ 2
//@ rewrite /transfer_memo::TRANSFER_MEMO_SWAP\.as_bytes\(\)/ => /memo_bytes(transfer_memo::TRANSFER_MEMO_SWAP)/
//@ end
}
