//@ needs specs bitlemmas errors u256_math
pub mod bit_math {
use vstd::prelude::*;
use crate::errors::ErrorCode;
use crate::specs::*;
use crate::u256_math::*;
broadcast use {crate::bitlemmas::bits64, vstd::arithmetic::mul::group_mul_basics};

//@ tags C02 C06 C07 C08 C11 C01
//@ const math/bit_math.rs Q64_RESOLUTION Q64_MASK

//@ fn math/bit_math.rs checked_mul_div -> r canary
    ensures
        d == 0 ==> r == Err::<u128, ErrorCode>(ErrorCode::DivideByZero),
        d != 0 && n0 * n1 > U128MAX() ==> r == Err::<u128, ErrorCode>(ErrorCode::MulDivOverflow),
        d != 0 && n0 * n1 <= U128MAX() ==> r == Ok::<u128, ErrorCode>(((n0 * n1) / (d as int)) as u128),
//@ end

//@ fn math/bit_math.rs checked_mul_div_round_up -> r
    ensures
        d == 0 ==> r == Err::<u128, ErrorCode>(ErrorCode::DivideByZero),
        d != 0 && n0 * n1 > U128MAX() ==> r == Err::<u128, ErrorCode>(ErrorCode::MulDivOverflow),
        d != 0 && n0 * n1 <= U128MAX() ==> r == Ok::<u128, ErrorCode>(div_round(n0 * n1, d as int, true) as u128),
//@ end

//@ fn math/bit_math.rs checked_mul_div_round_up_if -> r
    ensures
        d == 0 ==> r == Err::<u128, ErrorCode>(ErrorCode::DivideByZero),
        d != 0 && n0 * n1 > U128MAX() ==> r == Err::<u128, ErrorCode>(ErrorCode::MulDivOverflow),
        d != 0 && n0 * n1 <= U128MAX() ==> r == Ok::<u128, ErrorCode>(div_round(n0 * n1, d as int, round_up) as u128)
            && div_round(n0 * n1, d as int, round_up) <= U128MAX(),
//@ inject before /Ok\(if round_up/
    proof { lemma_div_round_fits(p as int, d as int); }
//@ end

//@ fn math/bit_math.rs checked_mul_shift_right -> r canary
    ensures
        (n0 == 0 || n1 == 0) ==> r == Ok::<u64, ErrorCode>(0u64),
        n0 * n1 > U128MAX() ==> r == Err::<u64, ErrorCode>(ErrorCode::MultiplicationShiftRightOverflow),
        n0 * n1 <= U128MAX() ==> r == Ok::<u64, ErrorCode>(((n0 * n1) / Q()) as u64),
//@ end

//@ fn math/bit_math.rs checked_mul_shift_right_round_up_if -> r
    ensures
        (n0 == 0 || n1 == 0) ==> r == Ok::<u64, ErrorCode>(0u64),
        n0 * n1 > U128MAX() ==> r == Err::<u64, ErrorCode>(ErrorCode::MultiplicationShiftRightOverflow),
        n0 * n1 <= U128MAX() && div_round(n0 * n1, Q(), round_up) > U64MAX() ==> r == Err::<u64, ErrorCode>(ErrorCode::MultiplicationOverflow),
        n0 * n1 <= U128MAX() && div_round(n0 * n1, Q(), round_up) <= U64MAX() ==> r == Ok::<u64, ErrorCode>(div_round(n0 * n1, Q(), round_up) as u64),
//@ end

//@ fn math/bit_math.rs div_round_up -> r
    ensures
        d == 0 ==> r == Err::<u128, ErrorCode>(ErrorCode::DivideByZero),
        d != 0 ==> r == Ok::<u128, ErrorCode>(div_round(n as int, d as int, true) as u128),
//@ end

//@ fn math/bit_math.rs div_round_up_if -> r
    ensures
        d == 0 ==> r == Err::<u128, ErrorCode>(ErrorCode::DivideByZero),
        d != 0 ==> r == Ok::<u128, ErrorCode>(div_round(n as int, d as int, round_up) as u128)
            && div_round(n as int, d as int, round_up) <= U128MAX(),
//@ inject before /Ok\(if round_up/
    proof { lemma_div_round_fits(n as int, d as int); }
//@ end

//@ fn math/bit_math.rs div_round_up_if_u256 -> r
    requires d.view() != 0,
    ensures
        div_round(n.view(), d.view(), round_up) > U128MAX() ==> r == Err::<u128, ErrorCode>(ErrorCode::NumberDownCastError),
        div_round(n.view(), d.view(), round_up) <= U128MAX() ==> r == Ok::<u128, ErrorCode>(div_round(n.view(), d.view(), round_up) as u128),
//@ inject at /^\{/
    proof { lemma_view_bounds(n); lemma_view_bounds(d); lemma_div_round_fits(n.view(), d.view()); }
//@ end

/// n % d > 0 forces d >= 2, hence n / d + 1 <= n (for n >= 1): rounding up never overflows the type of n.
pub proof fn lemma_div_round_fits(n: int, d: int)
    requires n >= 0, d > 0,
    ensures n % d != 0 ==> n / d + 1 <= n, n / d <= n, n / d >= 0, 0 <= n % d < d,
{
    vstd::arithmetic::div_mod::lemma_fundamental_div_mod(n, d);
    vstd::arithmetic::div_mod::lemma_mod_bound(n, d);
    vstd::arithmetic::div_mod::lemma_div_pos_is_pos(n, d);
    if n % d != 0 {
        assert(d >= 2) by { if d == 1 { vstd::arithmetic::div_mod::lemma_mod_bound(n, 1); } };
        assert(n / d + 1 <= n) by(nonlinear_arith) requires n == d * (n / d) + n % d, d >= 2, n / d >= 0, n % d >= 1;
    } else {
        assert(n / d <= n) by(nonlinear_arith) requires n == d * (n / d) + n % d, d >= 1, n / d >= 0, n % d >= 0;
    }
    assert(n / d <= n) by(nonlinear_arith) requires n == d * (n / d) + n % d, d >= 1, n / d >= 0, n % d >= 0;
}
}
