pub mod bitlemmas {
use vstd::prelude::*;
pub broadcast proof fn lemma_shr64(p: u128) ensures #[trigger] (p >> 64u8) == p / 0x1_0000_0000_0000_0000u128
{ assert((p >> 64u8) == p / 0x1_0000_0000_0000_0000u128) by(bit_vector); }
pub broadcast proof fn lemma_shr64_u32(p: u128) ensures #[trigger] (p >> 64u32) == p / 0x1_0000_0000_0000_0000u128
{ assert((p >> 64u32) == p / 0x1_0000_0000_0000_0000u128) by(bit_vector); }
pub broadcast proof fn lemma_mask64(p: u128) ensures #[trigger] (p & 0xFFFF_FFFF_FFFF_FFFFu128) == p % 0x1_0000_0000_0000_0000u128
{ assert((p & 0xFFFF_FFFF_FFFF_FFFFu128) == p % 0x1_0000_0000_0000_0000u128) by(bit_vector); }
pub broadcast proof fn lemma_hilo(h: u64, l: u64)
  ensures #[trigger] (((h as u128) << 64u32) | (l as u128)) == (h as u128) * 0x1_0000_0000_0000_0000u128 + (l as u128)
{ assert((((h as u128) << 64u32) | (l as u128)) == (h as u128) * 0x1_0000_0000_0000_0000u128 + (l as u128)) by(bit_vector); }
pub broadcast proof fn lemma_mul_bound64(x: u128, y: u128)
  requires x < 0x1_0000_0000_0000_0000u128, y < 0x1_0000_0000_0000_0000u128
  ensures #[trigger] (x * y) <= 0xFFFF_FFFF_FFFF_FFFE_0000_0000_0000_0001u128
{ assert(x * y <= 0xFFFF_FFFF_FFFF_FFFFu128 * 0xFFFF_FFFF_FFFF_FFFFu128) by(nonlinear_arith)
    requires x <= 0xFFFF_FFFF_FFFF_FFFFu128, y <= 0xFFFF_FFFF_FFFF_FFFFu128; }
pub broadcast proof fn lemma_shl64(a: u128)
  requires a < 0x1_0000_0000_0000_0000u128
  ensures #[trigger] (a << 64u8) == a * 0x1_0000_0000_0000_0000u128
{ assert(a < 0x1_0000_0000_0000_0000u128 ==> (a << 64u8) == a * 0x1_0000_0000_0000_0000u128) by(bit_vector); }
pub broadcast proof fn lemma_shr32(p: u128) ensures #[trigger] (p >> 32u8) == p / 0x1_0000_0000u128
{ assert((p >> 32u8) == p / 0x1_0000_0000u128) by(bit_vector); }
pub broadcast group bits64 { lemma_shl64, lemma_shr32, lemma_shr64, lemma_shr64_u32, lemma_mask64, lemma_hilo, lemma_mul_bound64 }
}
